//! C15: incremental answers of a long-lived `CompilerSession` equal the answers of a fresh session
//! over the same effective file contents, after any edit history.
//!
//! A history is an initial disk state of five interdependent files plus a list of operations
//! (overlay install / removal, disk write + refresh, disk delete + refresh, bare refresh, queries).
//! At every query the observable answer of the long-lived session is compared with the answer of a
//! `CompilerSession::default()` that received exactly the current overlays over the same directory.
//! At the end of every history all queries on all roots are compared once more, and the effective
//! text of every file, as far as it can be observed through `graph`, is compared with the Lean
//! model of the input side (`c15 eff ...` requests).
use crate::common::{Opts, Rng, Sink, catch, n_threads, par_map};
use crate::pipeline;
use std::collections::HashMap;
use std::fmt::Write as _;
use std::path::{Path, PathBuf};
use zydeco_session::source::SourceParseError;
use zydeco_session::{AnalysisError, AnalysisOutcome, CompilerSession, SourceCaches, SourceLoadError};
use zydeco_syntax::Ugly;

pub const NF: usize = 5;
pub const FILES: [&str; NF] = ["root.zy", "a.zy", "a.zyi", "b.zy", "c.zy"];
const ROOT: usize = 0;
const A: usize = 1;
const ASIG: usize = 2;
const B: usize = 3;
const C: usize = 4;

const INT: &str = "@[intrinsic(i64)] _";

/// The small self-contained executable root (no prelude): exits with a.zy + b.zy.
fn exe_small() -> String {
    r#"begin
  let Int64 = @[intrinsic(i64)] _ that
  param (
    (/OS; /int64; /process) :
    exists
      @[builtin(os)] (OS : @[intrinsic(ctype)] _)
    .
      (int64 ::
        (@[builtin(int64_add)] (add ::
          (@[intrinsic(thk)] _) (Int64 -> Int64 -> (@[intrinsic(ret)] _) Int64)))) *
      (process ::
        @[builtin(exit)] (exit :: (@[intrinsic(thk)] _) (Int64 -> OS)))
  ) in
    let (x : Int64) = @[import("a.zy")] _ in
    let (y : Int64) = @[import("b.zy")] _ in
    do sum <- ! (int64/add) x y;
    ! (process/exit) sum
end
"#
    .to_string()
}

/// The executable root over the whole surface prelude: exits with a.zy + 40.
fn exe_prelude() -> String {
    format!(
        "{}let (x : Int64) = @[import(\"a.zy\")] _ in\ndo s <- ! (int64/add) x 40;\n! (process/exit) s\n",
        pipeline::prelude()
    )
}

fn coverage_root() -> String {
    format!(
        r#"begin
  let Unit = @[intrinsic(unit)] _ that
  let Bool =
    data
    | +False : Unit
    | +True : Unit
    end
  that
  let (x : {INT}) = @[import("a.zy")] _ that
  let value : Bool = +True() that
  match value
  | +True(_) => ret x
  end
end
"#
    )
}

/// Content variants per file. Exactly one variant per file is a syntax error (`syntax_variant`).
pub fn variants(file: usize) -> Vec<String> {
    match file {
        | ROOT => vec![
            format!("let (x : {INT}) = @[import(\"a.zy\")] _ in\nlet (y : {INT}) = @[import(\"b.zy\")] _ in\nret x\n"),
            exe_small(),
            format!("let (x : {INT}) = @[import(\"a.zy\")] _ in ret x\n"),
            format!("let (z : {INT}) = @[import(\"c.zy\")] _ in\nlet (x : {INT}) = @[import(\"a.zy\")] _ in\nret z\n"),
            "let (x : = in\n".to_string(),
            exe_prelude(),
            coverage_root(),
            format!("let (x : {INT}) = @[import(\"a.zy\")] _ in\nlet (y : {INT}) = \"s\" in\nret x\n"),
            "ret 7\n".to_string(),
        ],
        | A => vec![
            "3\n".to_string(),
            "4\n".to_string(),
            "\"s\"\n".to_string(),
            "(1,\n".to_string(),
            "@[import(\"c.zy\")] _\n".to_string(),
            "\n\n  \"s\"\n".to_string(),
            "\n 3\n".to_string(),
        ],
        | ASIG => vec![
            format!("{INT}\n"),
            "@[intrinsic(string)] _\n".to_string(),
            "@[\n".to_string(),
            "()\n".to_string(),
        ],
        | B => vec![
            "5\n".to_string(),
            "@[import(\"a.zy\")] _\n".to_string(),
            "@[import(\"root.zy\")] _\n".to_string(),
            "let = \n".to_string(),
            "\"t\"\n".to_string(),
            "@[import(\"c.zy\")] _\n".to_string(),
        ],
        | C => vec![
            "9\n".to_string(),
            "\"u\"\n".to_string(),
            "@[import(\"b.zy\")] _\n".to_string(),
            ")\n".to_string(),
        ],
        | _ => unreachable!(),
    }
}

pub fn syntax_variant(file: usize) -> usize {
    match file {
        | ROOT => 4,
        | A => 3,
        | ASIG => 2,
        | B => 3,
        | C => 3,
        | _ => unreachable!(),
    }
}

#[derive(Clone, Copy, Debug, PartialEq, Eq, Hash)]
pub enum Q {
    Graph,
    Analyze,
    Reports,
    Coverage,
    Facts,
    Exec,
}

impl Q {
    const ALL: [Q; 6] = [Q::Graph, Q::Analyze, Q::Reports, Q::Coverage, Q::Facts, Q::Exec];
    fn letter(self) -> char {
        match self {
            | Q::Graph => 'g',
            | Q::Analyze => 'a',
            | Q::Reports => 'r',
            | Q::Coverage => 'c',
            | Q::Facts => 'f',
            | Q::Exec => 'x',
        }
    }
    fn parse(c: char) -> Option<Q> {
        Q::ALL.into_iter().find(|q| q.letter() == c)
    }
}

#[derive(Clone, Debug, PartialEq, Eq)]
pub enum Op {
    Overlay(usize, usize),
    Clear(usize),
    /// write the variant to disk, immediately followed by `refresh_disk`
    Write(usize, usize),
    /// delete the file from disk, immediately followed by `refresh_disk`
    Delete(usize),
    /// write the variant to disk, immediately followed by `clear_overlay` (which re-reads the disk)
    WriteClear(usize, usize),
    /// delete the file from disk, immediately followed by `clear_overlay`
    DeleteClear(usize),
    Refresh(usize),
    Query(usize, Q),
    /// the same query asked through a `snapshot()` that is dropped right after
    SnapQuery(usize, Q),
}

impl Op {
    fn token(&self) -> String {
        match self {
            | Op::Overlay(f, v) => format!("o{f}.{v}"),
            | Op::Clear(f) => format!("c{f}"),
            | Op::Write(f, v) => format!("w{f}.{v} r{f}"),
            | Op::Delete(f) => format!("d{f} r{f}"),
            | Op::WriteClear(f, v) => format!("w{f}.{v} c{f}"),
            | Op::DeleteClear(f) => format!("d{f} c{f}"),
            | Op::Refresh(f) => format!("r{f}"),
            | Op::Query(f, q) => format!("q{f}.{}", q.letter()),
            | Op::SnapQuery(f, q) => format!("s{f}.{}", q.letter()),
        }
    }
}

#[derive(Clone, Debug)]
pub struct History {
    pub init: [Option<usize>; NF],
    pub ops: Vec<Op>,
}

fn opt_tok(v: Option<usize>) -> String {
    v.map(|v| v.to_string()).unwrap_or_else(|| "-".into())
}

impl History {
    pub fn encode(&self) -> String {
        let init: Vec<String> = self.init.iter().map(|v| opt_tok(*v)).collect();
        let ops: Vec<String> = self.ops.iter().map(|o| o.token()).collect();
        format!("{} {}", init.join(","), ops.join(" ")).trim_end().to_string()
    }
    pub fn decode(s: &str) -> Option<History> {
        let mut it = s.split_whitespace();
        let init_s = it.next()?;
        let mut init = [None; NF];
        for (i, t) in init_s.split(',').enumerate() {
            if i >= NF {
                return None;
            }
            init[i] = if t == "-" { None } else { Some(t.parse().ok()?) };
        }
        let toks: Vec<&str> = it.collect();
        let mut ops = Vec::new();
        let mut i = 0;
        let fv = |t: &str| -> Option<(usize, usize)> {
            let (f, v) = t.split_once('.')?;
            Some((f.parse().ok()?, v.parse().ok()?))
        };
        while i < toks.len() {
            let t = toks[i];
            let (k, rest) = t.split_at(1);
            match k {
                | "o" => {
                    let (f, v) = fv(rest)?;
                    ops.push(Op::Overlay(f, v));
                }
                | "c" => ops.push(Op::Clear(rest.parse().ok()?)),
                | "w" => {
                    let (f, v) = fv(rest)?;
                    if toks.get(i + 1) == Some(&format!("r{f}").as_str()) {
                        ops.push(Op::Write(f, v));
                    } else if toks.get(i + 1) == Some(&format!("c{f}").as_str()) {
                        ops.push(Op::WriteClear(f, v));
                    } else {
                        return None;
                    }
                    i += 1;
                }
                | "d" => {
                    let f: usize = rest.parse().ok()?;
                    if toks.get(i + 1) == Some(&format!("r{f}").as_str()) {
                        ops.push(Op::Delete(f));
                    } else if toks.get(i + 1) == Some(&format!("c{f}").as_str()) {
                        ops.push(Op::DeleteClear(f));
                    } else {
                        return None;
                    }
                    i += 1;
                }
                | "r" => ops.push(Op::Refresh(rest.parse().ok()?)),
                | "q" | "s" => {
                    let (f, q) = rest.split_once('.')?;
                    let q = Q::parse(q.chars().next()?)?;
                    let f = f.parse().ok()?;
                    ops.push(if k == "q" { Op::Query(f, q) } else { Op::SnapQuery(f, q) });
                }
                | _ => return None,
            }
            i += 1;
        }
        Some(History { init, ops })
    }
}

// ---------------------------------------------------------------------------------------------
// Observation of one session
// ---------------------------------------------------------------------------------------------

fn fnv(s: &str) -> u64 {
    let mut h: u64 = 0xcbf29ce484222325;
    for b in s.as_bytes() {
        h ^= *b as u64;
        h = h.wrapping_mul(0x100000001b3);
    }
    h
}

/// Arena identities (`SomeId(key-space, index)`) are process-global counters: never compared.
fn mask_ids(s: &str) -> String {
    let mut out = String::new();
    let mut rest = s;
    while let Some(pos) = rest.find("Id(") {
        out.push_str(&rest[..pos + 3]);
        rest = &rest[pos + 3..];
        match rest.find(')') {
            | Some(close) => {
                out.push('#');
                rest = &rest[close..];
            }
            | None => break,
        }
    }
    out.push_str(rest);
    out
}

/// Key-space numbers (process-global or derived from them) show up as long digit runs.
fn mask_big_numbers(s: &str) -> String {
    let mut out = String::with_capacity(s.len());
    let mut run = String::new();
    for c in s.chars().chain(std::iter::once('\0')) {
        if c.is_ascii_digit() {
            run.push(c);
        } else {
            if run.len() >= 9 {
                out.push('#');
            } else {
                out.push_str(&run);
            }
            run.clear();
            if c != '\0' {
                out.push(c);
            }
        }
    }
    out
}

/// A digest spelled with letters only (`a`..`p`), so that the masking of long digit runs never
/// touches it.
fn digest(s: &str) -> String {
    let h = fnv(s);
    (0..16).map(|i| (b'a' + ((h >> (60 - 4 * i)) & 0xf) as u8) as char).collect()
}

fn text_id(s: &str) -> String {
    if s.len() <= 48 { format!("{s:?}") } else { format!("<{}b#{}>", s.len(), digest(s)) }
}

fn name_of(dir: &Path, p: &Path) -> String {
    match p.strip_prefix(dir) {
        | Ok(r) => r.display().to_string(),
        | Err(_) => p.display().to_string(),
    }
}

fn panic_answer((msg, loc): (String, String)) -> String {
    format!("PANIC {msg} @ {loc}")
}

fn obs_graph(s: &CompilerSession, dir: &Path, root: &Path) -> String {
    match catch(|| s.graph(root)) {
        | Err(p) => panic_answer(p),
        | Ok(Err(e)) => format!("load-error: {e}"),
        | Ok(Ok(g)) => {
            let nm = |sid| name_of(dir, &g.sources[&sid].path);
            let mut out = format!("graph root={}", nm(g.root));
            for (_, f) in g.sources.iter() {
                let imps: Vec<String> = f
                    .imports
                    .iter()
                    .map(|i| {
                        let e = &g.imports[i];
                        format!("{}@{}", nm(e.imported), e.span)
                    })
                    .collect();
                let sig = f.signature.map(nm).unwrap_or_else(|| "-".into());
                write!(
                    out,
                    " | {} text={} imports=[{}] sig={} warnings={}",
                    name_of(dir, &f.path),
                    text_id(&f.source),
                    imps.join(","),
                    sig,
                    f.warnings.len()
                )
                .unwrap();
            }
            let order: Vec<String> = g.provider_order().into_iter().map(nm).collect();
            write!(out, " | order={}", order.join(",")).unwrap();
            out
        }
    }
}

fn error_phase(e: &AnalysisError) -> &'static str {
    match e {
        | AnalysisError::Source { .. } => "source",
        | AnalysisError::TextualProgram { .. } => "textual",
        | AnalysisError::Desugar { .. } => "desugar",
        | AnalysisError::Resolve { .. } => "resolve",
    }
}

fn render_reports_with(
    reports: &zydeco_statics::TyckReports, analysis: &zydeco_session::ProgramAnalysis,
) -> String {
    let mut out = String::new();
    for (i, report) in reports.reports.iter().enumerate() {
        let mut buf: Vec<u8> = Vec::new();
        let _ = report.write(SourceCaches::analysis(analysis), &mut buf);
        let span = match reports.spans.get(i) {
            | Some(Some((path, range, msg))) => format!("{}:{}..{}:{}", path.as_path().display(), range.start, range.end, msg),
            | Some(None) => "nospan".to_string(),
            | None => "missing-span-entry".to_string(),
        };
        write!(out, "\n#{i} [{span}]\n{}", pipeline::strip_ansi(&String::from_utf8_lossy(&buf))).unwrap();
    }
    out
}

fn obs_analyze(s: &CompilerSession, dir: &Path, root: &Path) -> String {
    match catch(|| s.analyze(root)) {
        | Err(p) => panic_answer(p),
        | Ok(Err(e)) => format!("error:{} {e}", error_phase(&e)),
        | Ok(Ok(a)) => {
            let mut out = String::new();
            match a.outcome() {
                | AnalysisOutcome::Checked { root } => {
                    let sort = match root {
                        | zydeco_statics::syntax::TermAnnId::Hole(_) => "hole",
                        | zydeco_statics::syntax::TermAnnId::Kind(_) => "kind",
                        | zydeco_statics::syntax::TermAnnId::Type(..) => "type",
                        | zydeco_statics::syntax::TermAnnId::Value(..) => "value",
                        | zydeco_statics::syntax::TermAnnId::Compu(..) => "compu",
                    };
                    write!(out, "accept root-sort={sort}").unwrap();
                }
                | AnalysisOutcome::Rejected { reports } => {
                    let r = catch(|| render_reports_with(reports, &a)).unwrap_or_else(panic_answer);
                    write!(out, "reject n={}{}", reports.reports.len(), r).unwrap();
                }
            }
            write!(out, "\nroot-path={}", name_of(dir, a.root_path())).unwrap();
            for (p, text) in a.sources() {
                write!(out, "\nsource {} {}", name_of(dir, p), text_id(text)).unwrap();
            }
            write!(
                out,
                "\nwarnings={} observations={} coverage-index={} defs={} terms={}",
                a.warnings().len(),
                a.observations().len(),
                a.statics().coverage_errors.len(),
                a.scoped().defs.len(),
                a.scoped().terms.len()
            )
            .unwrap();
            out
        }
    }
}

fn obs_reports(s: &CompilerSession, root: &Path) -> String {
    match catch(|| s.reports(root)) {
        | Err(p) => panic_answer(p),
        | Ok(Err(e)) => format!("error:{} {e}", error_phase(&e)),
        | Ok(Ok(None)) => "no-reports".to_string(),
        | Ok(Ok(Some(reports))) => {
            let rendered = match catch(|| s.analyze(root)) {
                | Ok(Ok(a)) => catch(|| render_reports_with(&reports, &a)).unwrap_or_else(panic_answer),
                | Ok(Err(e)) => format!(" analysis-error:{e}"),
                | Err(p) => panic_answer(p),
            };
            format!("reports n={}{}", reports.reports.len(), rendered)
        }
    }
}

fn obs_coverage(s: &CompilerSession, root: &Path) -> String {
    match catch(|| s.coverage(root)) {
        | Err(p) => panic_answer(p),
        | Ok(Err(e)) => format!("error:{} {e}", error_phase(&e)),
        | Ok(Ok(errors)) => {
            let items: Vec<String> = errors.iter().map(|e| e.to_string()).collect();
            format!("coverage n={} [{}]", items.len(), items.join(" ;; "))
        }
    }
}

/// Per-node facts: the annotation of every scoped definition (pretty-printed against the
/// re-materialised arena), the normalised type of a computation root, and the sort of the
/// annotation of every scoped term.
fn obs_facts(s: &CompilerSession, root: &Path) -> String {
    let a = match catch(|| s.analyze(root)) {
        | Err(p) => return panic_answer(p),
        | Ok(Err(e)) => return format!("error:{} {e}", error_phase(&e)),
        | Ok(Ok(a)) => a,
    };
    let res = catch(|| {
        let mut out = String::new();
        let statics = match s.materialize_arena(&a) {
            | Ok(st) => st,
            | Err(e) => return format!("materialize-error: {e}"),
        };
        let fmt = zydeco_statics::fmt::Formatter::new(a.scoped(), &statics);
        let where_of = |entity: Option<zydeco_surface::textual::syntax::EntityId>| -> String {
            match entity {
                | Some(e) => a.spans()[&e].to_string(),
                | None => "no-origin".into(),
            }
        };
        let mut def_lines: Vec<String> = Vec::new();
        for (def, name) in a.scoped().defs.iter() {
            let at = where_of(a.scoped().origins.source(&(*def).into()));
            let line = match s.annotation_of_def(root, *def) {
                | Ok(Some(ann)) => {
                    let td = match s.type_definition_of_def(root, *def) {
                        | Ok(Some(t)) => format!(" := {}", t.ugly(&fmt)),
                        | Ok(None) => String::new(),
                        | Err(e) => format!(" := error {e}"),
                    };
                    mask_big_numbers(&format!("{at} {} : {}{}", name.0, ann.ugly(&fmt), td))
                }
                | Ok(None) => format!("{at} {} : -", name.0),
                | Err(e) => format!("{at} {} : error {e}", name.0),
            };
            def_lines.push(line);
        }
        def_lines.sort();
        write!(out, "\ndefs n={} {}", def_lines.len(), two_hashes(&def_lines)).unwrap();
        for l in def_lines.iter().take(40) {
            write!(out, "\n{l}").unwrap();
        }
        if let Some(zydeco_statics::syntax::TermAnnId::Compu(_, ty)) = a.outcome().root() {
            match s.normalized_type(root, ty) {
                | Ok(Some(_)) => write!(out, "\nroot-type normalized; {}", mask_big_numbers(&ty.ugly(&fmt))).unwrap(),
                | Ok(None) => write!(out, "\nroot-type not-normalized; {}", mask_big_numbers(&ty.ugly(&fmt))).unwrap(),
                | Err(e) => write!(out, "\nroot-type error {e}").unwrap(),
            }
        }
        let mut term_lines: Vec<String> = Vec::new();
        for (term, _) in a.scoped().terms.iter() {
            let at = where_of(a.scoped().origins.source(&term.into()));
            let sort = match s.annotation_of_term(root, term) {
                | Ok(Some(zydeco_statics::syntax::TermAnnId::Hole(_))) => 'h',
                | Ok(Some(zydeco_statics::syntax::TermAnnId::Kind(_))) => 'k',
                | Ok(Some(zydeco_statics::syntax::TermAnnId::Type(..))) => 't',
                | Ok(Some(zydeco_statics::syntax::TermAnnId::Value(..))) => 'v',
                | Ok(Some(zydeco_statics::syntax::TermAnnId::Compu(..))) => 'c',
                | Ok(None) => '-',
                | Err(_) => '!',
            };
            term_lines.push(format!("{at}={sort}"));
        }
        term_lines.sort();
        write!(out, "\nterms n={} {}", term_lines.len(), two_hashes(&term_lines)).unwrap();
        for l in term_lines.iter().take(40) {
            write!(out, "\n{l}").unwrap();
        }
        out
    });
    match res {
        | Ok(out) => format!("facts{out}"),
        | Err(p) => panic_answer(p),
    }
}

fn obs_exec(s: &CompilerSession, root: &Path) -> String {
    let a = match catch(|| s.analyze(root)) {
        | Err(p) => return panic_answer(p),
        | Ok(Err(e)) => return format!("error:{} {e}", error_phase(&e)),
        | Ok(Ok(a)) => a,
    };
    let r = pipeline::run(s, &a, b"", &[], 200_000);
    format!("run end={} stdout={} steps={}", mask_ids(&pipeline::end_str(&r.end)), crate::common::hex(&r.stdout), r.steps)
}

pub fn observe(s: &CompilerSession, dir: &Path, file: usize, q: Q) -> String {
    let root = dir.join(FILES[file]);
    let answer = match q {
        | Q::Graph => obs_graph(s, dir, &root),
        | Q::Analyze => obs_analyze(s, dir, &root),
        | Q::Reports => obs_reports(s, &root),
        | Q::Coverage => obs_coverage(s, &root),
        | Q::Facts => obs_facts(s, &root),
        | Q::Exec => obs_exec(s, &root),
    };
    // unsolved holes are printed with their arena identity (`[fill-ty <key space>#<index>]`)
    mask_big_numbers(&answer)
}

/// The class of an answer, for the distribution counters.
fn answer_class(ans: &str) -> String {
    let first = ans.split([' ', '\n']).next().unwrap_or("");
    if first == "load-error:" {
        let rest = &ans["load-error: ".len()..];
        let kind = if rest.starts_with("cannot resolve root source") {
            "root-missing"
        } else if rest.starts_with("cannot parse source") {
            "parse"
        } else if rest.contains("cycle") || rest.contains("cyclic") {
            "cycle"
        } else if rest.starts_with("cannot resolve import") || rest.contains("imported from") {
            "import-missing"
        } else {
            "other"
        };
        return format!("load-error:{kind}");
    }
    if first == "run" {
        let end = ans.split(' ').nth(1).unwrap_or("");
        let end = end.split(':').next().unwrap_or("");
        return format!("run:{end}");
    }
    first.trim_end_matches(':').to_string()
}

// ---------------------------------------------------------------------------------------------
// The world: one scratch directory, the harness's own bookkeeping of disk and overlays
// ---------------------------------------------------------------------------------------------

pub struct World {
    pub dir: PathBuf,
    pub texts: Vec<Vec<String>>,
    pub disk: [Option<usize>; NF],
    pub overlay: [Option<usize>; NF],
}

impl World {
    pub fn new(dir: &Path, init: &[Option<usize>; NF]) -> World {
        // the directory is reused by the worker: only the five files are reset
        std::fs::create_dir_all(dir).expect("scratch dir");
        let dir = dir.canonicalize().expect("canonical scratch dir");
        let texts: Vec<Vec<String>> = (0..NF).map(variants).collect();
        for f in 0..NF {
            match init[f] {
                | Some(v) => std::fs::write(dir.join(FILES[f]), &texts[f][v]).expect("write initial file"),
                | None => {
                    let _ = std::fs::remove_file(dir.join(FILES[f]));
                }
            }
        }
        World { dir, texts, disk: *init, overlay: [None; NF] }
    }
    pub fn path(&self, f: usize) -> PathBuf {
        self.dir.join(FILES[f])
    }
    pub fn effective(&self) -> [Option<usize>; NF] {
        let mut e = [None; NF];
        for f in 0..NF {
            e[f] = self.overlay[f].or(self.disk[f]);
        }
        e
    }
    /// Apply a non-query operation to the disk / the long-lived session.
    pub fn apply(&mut self, s: &mut CompilerSession, op: &Op) -> Result<(), String> {
        let r = catch(|| -> Result<(), SourceLoadError> {
            match op {
                | Op::Overlay(f, v) => {
                    s.set_overlay(self.path(*f), self.texts[*f][*v].clone())?;
                    self.overlay[*f] = Some(*v);
                }
                | Op::Clear(f) => {
                    s.clear_overlay(self.path(*f))?;
                    self.overlay[*f] = None;
                }
                | Op::Write(f, v) => {
                    std::fs::write(self.path(*f), &self.texts[*f][*v]).expect("write");
                    self.disk[*f] = Some(*v);
                    s.refresh_disk(self.path(*f))?;
                }
                | Op::Delete(f) => {
                    let _ = std::fs::remove_file(self.path(*f));
                    self.disk[*f] = None;
                    s.refresh_disk(self.path(*f))?;
                }
                | Op::WriteClear(f, v) => {
                    std::fs::write(self.path(*f), &self.texts[*f][*v]).expect("write");
                    self.disk[*f] = Some(*v);
                    s.clear_overlay(self.path(*f))?;
                    self.overlay[*f] = None;
                }
                | Op::DeleteClear(f) => {
                    let _ = std::fs::remove_file(self.path(*f));
                    self.disk[*f] = None;
                    s.clear_overlay(self.path(*f))?;
                    self.overlay[*f] = None;
                }
                | Op::Refresh(f) => s.refresh_disk(self.path(*f))?,
                | Op::Query(..) | Op::SnapQuery(..) => {}
            }
            Ok(())
        });
        match r {
            | Ok(Ok(())) => Ok(()),
            | Ok(Err(e)) => Err(format!("edit-error: {e}")),
            | Err(p) => Err(panic_answer(p)),
        }
    }
    /// A fresh session that received exactly the current overlays.
    pub fn fresh(&self) -> CompilerSession {
        let mut s = CompilerSession::default();
        for f in 0..NF {
            if let Some(v) = self.overlay[f] {
                s.set_overlay(self.path(f), self.texts[f][v].clone()).expect("overlay on a fresh session");
            }
        }
        s
    }
}

/// Fresh answers memoised per worker by (effective contents, which files exist on disk, root,
/// query); a sample of the hits is recomputed to check that a fresh answer depends on nothing else.
#[derive(Default)]
pub struct FreshCache {
    map: HashMap<([Option<usize>; NF], [bool; NF], usize, Q), String>,
    pub hits: u64,
    pub misses: u64,
    pub rechecks: u64,
    tick: u64,
}

pub const K_SEMANTIC: &str = "c15-incremental-differs-from-fresh";
pub const K_SNAPSHOT: &str = "c15-snapshot-history-differs-from-fresh";
pub const K_EDIT_FAILED: &str = "c15-edit-operation-failed";
pub const K_AFTER_FAILED: &str = "c15-stale-after-failed-refresh";
pub const K_SPELLING: &str = "c15-path-spelling-differs-from-fresh";
pub const K_SPLIT: &str = "c15-fresh-answer-depends-on-more-than-effective-contents";
pub const K_EFFECTIVE: &str = "c15-effective-text-differs";
/// most telling first
pub const KINDS: [&str; 7] = [K_SEMANTIC, K_EFFECTIVE, K_SNAPSHOT, K_EDIT_FAILED, K_AFTER_FAILED, K_SPLIT, K_SPELLING];

#[derive(Clone)]
pub struct Diff {
    pub step: usize,
    pub op: String,
    /// the (root, query) whose answers differ, if the difference is one of a query
    pub at: Option<(usize, Q)>,
    pub kind: &'static str,
    pub long_lived: String,
    pub fresh: String,
}

#[derive(Default)]
pub struct Stats {
    pub counters: HashMap<String, u64>,
}

impl Stats {
    fn count(&mut self, k: &str) {
        *self.counters.entry(k.to_string()).or_insert(0) += 1;
    }
}

fn fresh_answer(w: &World, cache: Option<&mut FreshCache>, file: usize, q: Q) -> Result<String, (String, String)> {
    let compute = || observe(&w.fresh(), &w.dir, file, q);
    let Some(cache) = cache else { return Ok(compute()) };
    let mut on_disk = [false; NF];
    for f in 0..NF {
        on_disk[f] = w.disk[f].is_some();
    }
    let key = (w.effective(), on_disk, file, q);
    cache.tick += 1;
    if let Some(hit) = cache.map.get(&key) {
        cache.hits += 1;
        if cache.tick % 8 == 0 {
            cache.rechecks += 1;
            let again = compute();
            if &again != hit {
                return Err((hit.clone(), again));
            }
        }
        return Ok(hit.clone());
    }
    cache.misses += 1;
    let ans = compute();
    if cache.map.len() >= 40_000 {
        cache.map.clear();
    }
    cache.map.insert(key, ans.clone());
    Ok(ans)
}

/// The identity of a path that does not exist is spelled with a trailing separator by the session
/// (`a.zy/`). Two answers that differ only in that are classified separately.
fn spelling_normal(s: &str) -> String {
    let s = s.replace(".zy/", ".zy").replace(".zyi/", ".zyi");
    let mut out = String::with_capacity(s.len());
    let mut rest = s.as_str();
    while let Some(pos) = rest.find("raw#") {
        out.push_str(&rest[..pos + 4]);
        rest = &rest[pos + 4..];
        let n = rest.chars().take_while(|c| ('a'..='p').contains(c)).count().min(16);
        rest = &rest[n..];
    }
    out.push_str(rest);
    out
}

/// A digest of a list of lines in two forms: with path spellings normalised, and raw.
fn two_hashes(lines: &[String]) -> String {
    let raw = lines.join("\n");
    format!("#{} raw#{}", digest(&spelling_normal(&raw)), digest(&raw))
}

/// Probe the effective text of every file through `graph(file)` of the given session: the
/// variant index where it is observable, nothing where a failing dependency hides it.
fn probe_effective(s: &CompilerSession, w: &World) -> [Option<String>; NF] {
    let mut seen: [Option<String>; NF] = Default::default();
    let idx = |p: &Path| (0..NF).find(|f| w.path(*f) == p);
    let mut put = |i: usize, tok: String| match &seen[i] {
        | Some(prev) if *prev != tok => seen[i] = Some(format!("inconsistent({prev}/{tok})")),
        | _ => seen[i] = Some(tok),
    };
    for f in 0..NF {
        match catch(|| s.graph(w.path(f))) {
            | Ok(Ok(g)) => {
                for (_, src) in g.sources.iter() {
                    if let Some(i) = idx(&src.path) {
                        let v = w.texts[i].iter().position(|t| *t == src.source);
                        put(i, v.map(|v| v.to_string()).unwrap_or_else(|| "unknown-text".into()));
                    }
                }
            }
            | Ok(Err(e)) => match &*e {
                | SourceLoadError::Parse(SourceParseError::Parse { path, .. }) => {
                    if let Some(i) = idx(path) {
                        put(i, syntax_variant(i).to_string());
                    }
                }
                | SourceLoadError::RootPath { .. } => put(f, "-".into()),
                | _ => {}
            },
            | Err(_) => {}
        }
    }
    seen
}

pub struct Outcome {
    /// the first difference of every kind that occurred
    pub diffs: Vec<Diff>,
    /// (request, implementation answer) for the Lean model of the input side
    pub model_case: Option<(String, String)>,
}

impl Outcome {
    pub fn has(&self, kind: &str) -> bool {
        self.diffs.iter().any(|d| d.kind == kind)
    }
}

struct Runner<'a> {
    w: World,
    s: CompilerSession,
    cache: Option<&'a mut FreshCache>,
    stats: Option<&'a mut Stats>,
    last: HashMap<(usize, Q), String>,
    diffs: Vec<Diff>,
    failed_edit: bool,
    snapshot_used: bool,
}

impl Runner<'_> {
    fn record(&mut self, d: Diff) {
        if !self.diffs.iter().any(|x| x.kind == d.kind) {
            self.diffs.push(d);
        }
    }
    fn count(&mut self, k: &str) {
        if let Some(st) = self.stats.as_deref_mut() {
            st.count(k);
        }
    }
    fn compare(&mut self, step: usize, op: String, file: usize, q: Q, snap: bool) {
        let long = if snap {
            self.snapshot_used = true;
            let snapshot = self.s.snapshot();
            let ans = observe(&snapshot, &self.w.dir, file, q);
            drop(snapshot);
            ans
        } else {
            observe(&self.s, &self.w.dir, file, q)
        };
        let fresh = match fresh_answer(&self.w, self.cache.as_deref_mut(), file, q) {
            | Ok(f) => f,
            | Err((first, again)) => {
                self.record(Diff { step, op: op.clone(), at: Some((file, q)), kind: K_SPLIT, long_lived: first, fresh: again.clone() });
                again
            }
        };
        if self.stats.is_some() {
            self.count(&format!("query:{}", q.letter()));
            self.count(&format!("query-root:{}", FILES[file]));
            self.count(&format!("answer:{}:{}", q.letter(), answer_class(&fresh)));
            let k = match self.last.get(&(file, q)) {
                | Some(prev) if *prev != fresh => "answer-changed-since-last-same-query",
                | Some(_) => "answer-same-as-last-same-query",
                | None => "first-query-of-its-kind-in-history",
            };
            self.count(k);
        }
        self.last.insert((file, q), fresh.clone());
        if long != fresh {
            let kind = if spelling_normal(&long) == spelling_normal(&fresh) {
                K_SPELLING
            } else if self.failed_edit {
                K_AFTER_FAILED
            } else if self.snapshot_used {
                K_SNAPSHOT
            } else {
                K_SEMANTIC
            };
            self.record(Diff { step, op, at: Some((file, q)), kind, long_lived: long, fresh });
        }
    }
    fn edit(&mut self, step: usize, op: &Op) {
        if self.stats.is_some() {
            let w = &self.w;
            let mut keys: Vec<&str> = Vec::new();
            match op {
                | Op::Overlay(f, v) => {
                    if w.overlay[*f].is_none() && w.disk[*f] == Some(*v) {
                        keys.push("shape:overlay-identical-to-disk");
                    }
                    if w.overlay[*f].or(w.disk[*f]).is_none() {
                        keys.push("shape:overlay-on-absent-file");
                    }
                    keys.push("op:set_overlay");
                }
                | Op::Clear(f) => {
                    if w.overlay[*f].is_some() && w.disk[*f].is_none() {
                        keys.push("shape:clear-overlay-of-absent-file");
                    }
                    if w.overlay[*f].is_none() {
                        keys.push("shape:clear-without-overlay");
                    }
                    keys.push("op:clear_overlay");
                }
                | Op::Write(f, _) => {
                    if w.disk[*f].is_none() {
                        keys.push("shape:file-created-on-disk");
                    }
                    if w.overlay[*f].is_some() {
                        keys.push("shape:disk-change-under-overlay");
                    }
                    keys.push("op:write+refresh_disk");
                }
                | Op::Delete(f) => {
                    if w.disk[*f].is_some() {
                        keys.push("shape:file-deleted-from-disk");
                    }
                    keys.push("op:delete+refresh_disk");
                }
                | Op::WriteClear(f, _) | Op::DeleteClear(f) => {
                    if w.overlay[*f].is_some() {
                        keys.push("shape:disk-change-then-clear-of-active-overlay");
                    }
                    keys.push("op:disk-change+clear_overlay");
                }
                | Op::Refresh(_) => keys.push("op:refresh_disk"),
                | _ => unreachable!(),
            }
            for k in keys {
                self.count(k);
            }
        }
        if let Err(e) = self.w.apply(&mut self.s, op) {
            self.failed_edit = true;
            self.record(Diff {
                step,
                op: op.token(),
                at: None,
                kind: K_EDIT_FAILED,
                long_lived: e,
                fresh: "an edit operation on a file of an existing directory does not fail".into(),
            });
        }
    }
}

/// Run one history, comparing the long-lived session with a fresh one at every query.
pub fn run_history(
    dir: &Path, h: &History, cache: Option<&mut FreshCache>, stats: Option<&mut Stats>, sweep: bool,
) -> Outcome {
    let mut r = Runner {
        w: World::new(dir, &h.init),
        s: CompilerSession::default(),
        cache,
        stats,
        last: HashMap::new(),
        diffs: Vec::new(),
        failed_edit: false,
        snapshot_used: false,
    };
    let mut edits_since_query = 0usize;
    for (step, op) in h.ops.iter().enumerate() {
        match op {
            | Op::Query(f, q) | Op::SnapQuery(f, q) => {
                let snap = matches!(op, Op::SnapQuery(..));
                r.count(&format!("edits-before-query:{}", edits_since_query.min(4)));
                r.count(if snap { "op:snapshot-query" } else { "op:query" });
                edits_since_query = 0;
                r.compare(step, op.token(), *f, *q, snap);
            }
            | _ => {
                edits_since_query += 1;
                r.edit(step, op);
            }
        }
    }
    if sweep {
        // final sweep: every query on every root
        let mut step = h.ops.len();
        for f in [ROOT, B, A, C] {
            for q in Q::ALL {
                r.compare(step, format!("sweep q{f}.{}", q.letter()), f, q, false);
                step += 1;
            }
        }
    }
    // the input side: what the session shows as effective texts, against the harness's own
    // bookkeeping (violation) and against the Lean model (request)
    let seen = probe_effective(&r.s, &r.w);
    let mask: String = seen.iter().map(|x| if x.is_some() { '1' } else { '0' }).collect();
    let ans: Vec<String> = seen.iter().map(|x| x.clone().unwrap_or_else(|| "?".into())).collect();
    let eff = r.w.effective();
    for f in 0..NF {
        if let Some(tok) = &seen[f] {
            if *tok != opt_tok(eff[f]) {
                let kind = if r.failed_edit { K_AFTER_FAILED } else if r.snapshot_used { K_SNAPSHOT } else { K_EFFECTIVE };
                r.record(Diff {
                    step: h.ops.len() + 100,
                    op: format!("probe effective text of {}", FILES[f]),
                    at: None,
                    kind,
                    long_lived: tok.clone(),
                    fresh: opt_tok(eff[f]),
                });
            }
        }
    }
    let request = format!("c15 eff {mask} {}", h.encode());
    Outcome { diffs: r.diffs, model_case: Some((request, ans.join(","))) }
}

/// Delete operations while the history still shows a difference of the same kind. A difference
/// found by the final sweep is first turned into an explicit query at the end of the history, so
/// that candidates run without the sweep.
pub fn shrink(dir: &Path, h: &History, d: &Diff) -> History {
    let kind = d.kind;
    let mut cur = h.clone();
    let run = |c: &History| run_history(dir, c, None, None, false);
    let fails = |c: &History| run(c).has(kind);
    if d.step >= cur.ops.len() {
        if let Some((f, q)) = d.at {
            cur.ops.push(Op::Query(f, q));
        }
    } else {
        cur.ops.truncate(d.step + 1);
    }
    if !fails(&cur) {
        // the sweep (or its order) matters: keep the history as it is
        return h.clone();
    }
    let mut budget = 200usize;
    loop {
        let mut changed = false;
        let mut i = 0;
        while i < cur.ops.len() && budget > 0 {
            let mut cand = cur.clone();
            cand.ops.remove(i);
            budget -= 1;
            if fails(&cand) {
                cur = cand;
                changed = true;
            } else {
                i += 1;
            }
        }
        // simplify the initial disk: remove files
        for f in 0..NF {
            if cur.init[f].is_some() && budget > 0 {
                let mut cand = cur.clone();
                cand.init[f] = None;
                budget -= 1;
                if fails(&cand) {
                    cur = cand;
                    changed = true;
                }
            }
        }
        if !changed || budget == 0 {
            break;
        }
    }
    cur
}

// ---------------------------------------------------------------------------------------------
// Generators
// ---------------------------------------------------------------------------------------------

fn weighted(rng: &mut Rng, weights: &[u64]) -> usize {
    let total: u64 = weights.iter().sum();
    let mut x = rng.below(total);
    for (i, w) in weights.iter().enumerate() {
        if x < *w {
            return i;
        }
        x -= *w;
    }
    weights.len() - 1
}

/// Variant choice weights: the prelude root (variant 5) is expensive to analyse, so it is rare in
/// the generic streams (it has a stream of its own).
fn pick_variant(rng: &mut Rng, f: usize, allow_prelude: bool) -> usize {
    let n = variants_len(f);
    // the small executable root is favoured so that run outcomes are compared often
    if f == ROOT && rng.chance(1, 4) {
        return 1;
    }
    loop {
        let v = rng.below(n as u64) as usize;
        if f == ROOT && v == 5 && !(allow_prelude && rng.chance(1, 3)) {
            continue;
        }
        return v;
    }
}

fn variants_len(f: usize) -> usize {
    match f {
        | ROOT => 9,
        | A => 7,
        | ASIG => 4,
        | B => 6,
        | C => 4,
        | _ => unreachable!(),
    }
}

fn random_init(rng: &mut Rng, allow_prelude: bool) -> [Option<usize>; NF] {
    let mut init = [None; NF];
    let present = [95u64, 85, 30, 85, 35];
    for f in 0..NF {
        if rng.chance(present[f], 100) {
            init[f] = Some(pick_variant(rng, f, allow_prelude));
        }
    }
    init
}

struct GenState {
    disk: [Option<usize>; NF],
    overlay: [Option<usize>; NF],
    used: Vec<Vec<usize>>,
}

fn random_history(rng: &mut Rng, len: usize, allow_prelude: bool, snapshots: bool) -> History {
    let init = random_init(rng, allow_prelude);
    let mut st = GenState { disk: init, overlay: [None; NF], used: (0..NF).map(|f| init[f].into_iter().collect()).collect() };
    let mut ops = Vec::new();
    // a history concentrates on one or two roots so that memo reuse and `lru = 1` eviction happen
    let main_root = *rng.pick(&[ROOT, ROOT, ROOT, B]);
    let other_root = *rng.pick(&[B, A, C, ROOT]);
    while ops.len() < len {
        let k = weighted(rng, &[24, 10, 12, 6, 3, 45, 4, 2]);
        let f = weighted(rng, &[22, 30, 16, 20, 12]);
        let choose_v = |rng: &mut Rng, st: &GenState| -> usize {
            let r = rng.below(100);
            if r < 35 && !st.used[f].is_empty() {
                *rng.pick(&st.used[f])
            } else if r < 45 && st.disk[f].is_some() {
                st.disk[f].unwrap()
            } else {
                pick_variant(rng, f, allow_prelude)
            }
        };
        match k {
            | 0 => {
                let v = choose_v(rng, &st);
                st.overlay[f] = Some(v);
                st.used[f].push(v);
                ops.push(Op::Overlay(f, v));
            }
            | 1 => {
                st.overlay[f] = None;
                ops.push(Op::Clear(f));
            }
            | 2 => {
                let v = choose_v(rng, &st);
                st.disk[f] = Some(v);
                st.used[f].push(v);
                ops.push(Op::Write(f, v));
            }
            | 3 => {
                st.disk[f] = None;
                ops.push(Op::Delete(f));
            }
            | 4 => ops.push(Op::Refresh(f)),
            | 6 => {
                let v = choose_v(rng, &st);
                st.disk[f] = Some(v);
                st.overlay[f] = None;
                st.used[f].push(v);
                ops.push(Op::WriteClear(f, v));
            }
            | 7 => {
                st.disk[f] = None;
                st.overlay[f] = None;
                ops.push(Op::DeleteClear(f));
            }
            | _ => {
                let root = match rng.below(10) {
                    | 0..=5 => main_root,
                    | 6..=7 => other_root,
                    | _ => *rng.pick(&[ROOT, B, A, C]),
                };
                let q = Q::ALL[weighted(rng, &[18, 34, 10, 6, 14, 18])];
                // running a program is mostly asked of the root that can be one
                let root = if q == Q::Exec && rng.chance(3, 4) { ROOT } else { root };
                if snapshots && rng.chance(1, 2) {
                    ops.push(Op::SnapQuery(root, q));
                } else {
                    ops.push(Op::Query(root, q));
                }
            }
        }
    }
    History { init, ops }
}

/// The risky shapes named by the property, each instantiated over the files and variants.
fn scripted_histories() -> Vec<(String, History)> {
    let mut out: Vec<(String, History)> = Vec::new();
    let base = [Some(0), Some(0), None, Some(0), None];
    let queries = [Q::Analyze, Q::Graph, Q::Exec, Q::Facts, Q::Reports];
    for q in queries {
        for root_v in [0usize, 1, 2, 3, 6, 7] {
            let mut init = base;
            init[ROOT] = Some(root_v);
            let qr = Op::Query(ROOT, q);
            // file first looked up while absent, then created (disk or overlay), then removed again
            for f in [A, ASIG, B, C] {
                for v in 0..variants_len(f).min(3) {
                    let mut i2 = init;
                    i2[f] = None;
                    out.push((
                        "absent-then-created-on-disk".into(),
                        History { init: i2, ops: vec![qr.clone(), Op::Write(f, v), qr.clone(), Op::Delete(f), qr.clone()] },
                    ));
                    out.push((
                        "absent-then-overlaid-then-cleared".into(),
                        History { init: i2, ops: vec![qr.clone(), Op::Overlay(f, v), qr.clone(), Op::Clear(f), qr.clone()] },
                    ));
                    out.push((
                        "overlay-before-first-lookup-then-cleared".into(),
                        History { init: i2, ops: vec![Op::Overlay(f, v), qr.clone(), Op::Clear(f), qr.clone()] },
                    ));
                    out.push((
                        "created-under-overlay-then-cleared".into(),
                        History {
                            init: i2,
                            ops: vec![qr.clone(), Op::Overlay(f, v), qr.clone(), Op::Write(f, (v + 1) % variants_len(f)), qr.clone(), Op::Clear(f), qr.clone()],
                        },
                    ));
                }
            }
            // overlay identical to disk, revert A -> B -> A by overlay and by disk
            for f in [ROOT, A, B] {
                let v0 = init[f].unwrap();
                for v1 in 0..variants_len(f) {
                    if v1 == v0 || (f == ROOT && v1 == 5) {
                        continue;
                    }
                    out.push((
                        "overlay-identical-to-disk".into(),
                        History { init, ops: vec![qr.clone(), Op::Overlay(f, v0), qr.clone(), Op::Overlay(f, v1), qr.clone(), Op::Clear(f), qr.clone()] },
                    ));
                    out.push((
                        "revert-by-overlay".into(),
                        History { init, ops: vec![qr.clone(), Op::Overlay(f, v1), qr.clone(), Op::Overlay(f, v0), qr.clone(), Op::Overlay(f, v1), qr.clone()] },
                    ));
                    out.push((
                        "revert-on-disk".into(),
                        History { init, ops: vec![qr.clone(), Op::Write(f, v1), qr.clone(), Op::Write(f, v0), qr.clone()] },
                    ));
                    out.push((
                        "overlay-reverts-to-disk-after-disk-change".into(),
                        History { init, ops: vec![qr.clone(), Op::Overlay(f, v1), qr.clone(), Op::Write(f, v1), Op::Clear(f), qr.clone(), Op::Write(f, v0), qr.clone()] },
                    ));
                }
            }
            // an overlay identical to the disk must survive a later change of the disk; a disk
            // change announced only by `clear_overlay`
            for f in [ROOT, A, B] {
                let v0 = init[f].unwrap();
                let v1 = if f == A { 2 } else if f == B { 4 } else { 8 };
                out.push((
                    "overlay-identical-to-disk-then-disk-change".into(),
                    History { init, ops: vec![qr.clone(), Op::Overlay(f, v0), Op::Write(f, v1), qr.clone(), Op::Clear(f), qr.clone()] },
                ));
                out.push((
                    "disk-change-announced-by-clear".into(),
                    History { init, ops: vec![qr.clone(), Op::Overlay(f, v1), qr.clone(), Op::WriteClear(f, v1), qr.clone(), Op::WriteClear(f, v0), qr.clone(), Op::DeleteClear(f), qr.clone()] },
                ));
            }
            // delete an imported file then restore it
            for f in [A, B] {
                out.push((
                    "delete-import-then-restore".into(),
                    History { init, ops: vec![qr.clone(), Op::Delete(f), qr.clone(), Op::Write(f, 1), qr.clone(), Op::Delete(f), Op::Write(f, 0), qr.clone()] },
                ));
            }
            // cycle introduced then removed (b imports root; c imports b imports c)
            out.push((
                "cycle-introduced-then-removed".into(),
                History { init, ops: vec![qr.clone(), Op::Overlay(B, 2), qr.clone(), Op::Query(B, q), Op::Clear(B), qr.clone(), Op::Query(B, q)] },
            ));
            out.push((
                "cycle-through-c".into(),
                History {
                    init,
                    ops: vec![qr.clone(), Op::Write(C, 2), Op::Overlay(B, 5), qr.clone(), Op::Query(B, q), Op::Write(C, 0), qr.clone(), Op::Clear(B), qr.clone()],
                },
            ));
            // alternate between two roots with edits in between: the `lru = 1` check memo
            out.push((
                "alternate-two-roots".into(),
                History {
                    init,
                    ops: vec![
                        Op::Query(ROOT, Q::Analyze),
                        Op::Query(B, Q::Analyze),
                        Op::Overlay(C, 0),
                        Op::Query(ROOT, q),
                        Op::Query(B, q),
                        Op::Overlay(A, 1),
                        Op::Query(B, q),
                        Op::Query(ROOT, q),
                        Op::Clear(C),
                        Op::Query(ROOT, Q::Exec),
                        Op::Query(ROOT, Q::Facts),
                    ],
                },
            ));
        }
    }
    out
}

/// All histories of `depth` edits over a focused alphabet, a query after every edit.
fn exhaustive_histories(depth: usize, init: [Option<usize>; NF], alphabet: &[Op], q: Q, root: usize) -> Vec<History> {
    let mut out = Vec::new();
    let n = alphabet.len();
    let total = n.pow(depth as u32);
    for code in 0..total {
        let mut ops = vec![Op::Query(root, q)];
        let mut c = code;
        for _ in 0..depth {
            ops.push(alphabet[c % n].clone());
            ops.push(Op::Query(root, q));
            c /= n;
        }
        out.push(History { init, ops });
    }
    out
}

// ---------------------------------------------------------------------------------------------
// Driver
// ---------------------------------------------------------------------------------------------

struct Job {
    stream: &'static str,
    shape: String,
    history: History,
}

struct JobResult {
    stream: &'static str,
    shape: String,
    history: History,
    outcome: Outcome,
    /// fresh-oracle cache (hits, misses, hits recomputed)
    cache: (u64, u64, u64),
}

struct Worker {
    dir: PathBuf,
    cache: FreshCache,
}

pub fn run(opts: &Opts) -> i32 {
    if opts.rest.first().map(|s| s.as_str()) == Some("replay") {
        return replay(opts);
    }
    let mut sink = Sink::new(&opts.out);
    let mut rng = Rng::new(opts.seed ^ 0xC15);
    let thorough = opts.thorough();
    let mut jobs: Vec<Job> = Vec::new();

    let n_prelude = if thorough { 600 } else { 120 };
    for _ in 0..n_prelude {
        let len = rng.range(8, 20) as usize;
        let mut r = rng.fork();
        let mut h = random_history(&mut r, len, true, false);
        if r.chance(2, 3) {
            h.init[ROOT] = Some(5);
        }
        jobs.push(Job { stream: "random-prelude", shape: "prelude".into(), history: h });
    }
    for (shape, history) in scripted_histories() {
        jobs.push(Job { stream: "scripted", shape, history });
    }
    // small-exhaustive: the dependency files of root variant 0 / 3, companion included
    let alphabet_a: Vec<Op> = vec![
        Op::Overlay(A, 1),
        Op::Overlay(A, 2),
        Op::Clear(A),
        Op::Write(A, 0),
        Op::Write(A, 2),
        Op::Delete(A),
        Op::Overlay(ASIG, 0),
        Op::Overlay(ASIG, 1),
        Op::Clear(ASIG),
        Op::Write(ASIG, 0),
        Op::Delete(ASIG),
    ];
    let alphabet_c: Vec<Op> = vec![
        Op::Overlay(C, 0),
        Op::Overlay(C, 2),
        Op::Clear(C),
        Op::Write(C, 1),
        Op::Delete(C),
        Op::Overlay(B, 5),
        Op::Overlay(B, 2),
        Op::Clear(B),
        Op::Overlay(ROOT, 3),
        Op::Clear(ROOT),
    ];
    let depth = if thorough { 4 } else { 3 };
    for (init, alphabet, root) in [
        ([Some(0), Some(0), None, Some(0), None], &alphabet_a, ROOT),
        ([Some(2), None, Some(1), Some(1), None], &alphabet_a, ROOT),
        ([Some(0), Some(0), None, Some(1), None], &alphabet_a, B),
        ([Some(0), Some(0), None, Some(0), None], &alphabet_c, ROOT),
        ([Some(3), Some(4), None, Some(0), Some(0)], &alphabet_c, ROOT),
    ] {
        for q in [Q::Analyze, Q::Graph] {
            for h in exhaustive_histories(depth, init, alphabet, q, root) {
                jobs.push(Job { stream: "exhaustive", shape: format!("depth-{depth}"), history: h });
            }
        }
    }
    let n_random = if thorough { 30_000 } else { 6_000 };
    for _ in 0..n_random {
        let len = rng.range(6, 24) as usize;
        let mut r = rng.fork();
        jobs.push(Job { stream: "random", shape: "short".into(), history: random_history(&mut r, len, false, false) });
    }
    let n_long = if thorough { 6_000 } else { 1_200 };
    for _ in 0..n_long {
        let len = rng.range(25, 60) as usize;
        let mut r = rng.fork();
        jobs.push(Job { stream: "random-long", shape: "long".into(), history: random_history(&mut r, len, false, false) });
    }
    let n_snap = if thorough { 8_000 } else { 1_500 };
    for _ in 0..n_snap {
        let len = rng.range(6, 30) as usize;
        let mut r = rng.fork();
        jobs.push(Job { stream: "random-snapshot", shape: "snapshot".into(), history: random_history(&mut r, len, false, true) });
    }

    let scratch = opts.out.join("scratch");
    let _ = std::fs::remove_dir_all(&scratch);
    std::fs::create_dir_all(&scratch).expect("scratch");
    let next_worker = std::sync::atomic::AtomicUsize::new(0);
    let global_stats: std::sync::Mutex<std::collections::BTreeMap<String, u64>> = Default::default();
    let results = par_map(
        jobs,
        n_threads().min(16),
        || {
            let k = next_worker.fetch_add(1, std::sync::atomic::Ordering::SeqCst);
            Worker { dir: scratch.join(format!("w{k}")), cache: FreshCache::default() }
        },
        |worker, job: Job| {
            let mut stats = Stats::default();
            let outcome = run_history(&worker.dir, &job.history, Some(&mut worker.cache), Some(&mut stats), true);
            let cache = (
                std::mem::take(&mut worker.cache.hits),
                std::mem::take(&mut worker.cache.misses),
                std::mem::take(&mut worker.cache.rechecks),
            );
            {
                let mut g = global_stats.lock().unwrap();
                for (k, v) in stats.counters.drain() {
                    *g.entry(k).or_insert(0) += v;
                }
            }
            JobResult { stream: job.stream, shape: job.shape, history: job.history, outcome, cache }
        },
    );

    // the first differences of every kind (in job order, so the report does not depend on
    // scheduling) are confirmed without the cache and shrunk
    const PER_KIND: usize = 10;
    let mut by_kind: std::collections::BTreeMap<&'static str, Vec<(bool, usize, usize)>> = Default::default();
    for (i, r) in results.iter().enumerate() {
        for d in &r.outcome.diffs {
            // cheapest first: histories without the prelude root, shortest, then job order
            by_kind.entry(d.kind).or_default().push((r.stream == "random-prelude", r.history.ops.len(), i));
        }
    }
    let mut chosen: Vec<(usize, Diff)> = Vec::new();
    for (kind, mut v) in by_kind {
        v.sort();
        for (_, _, i) in v.into_iter().take(PER_KIND) {
            let d = results[i].outcome.diffs.iter().find(|d| d.kind == kind).expect("kind recorded").clone();
            chosen.push((i, d));
        }
    }
    let to_shrink: Vec<(usize, History, Diff)> =
        chosen.into_iter().map(|(i, d)| (i, results[i].history.clone(), d)).collect();
    let next_shrinker = std::sync::atomic::AtomicUsize::new(0);
    let shrunk = par_map(
        to_shrink,
        n_threads().min(16),
        || {
            let k = next_shrinker.fetch_add(1, std::sync::atomic::Ordering::SeqCst);
            scratch.join(format!("s{k}"))
        },
        |dir, (i, history, d): (usize, History, Diff)| {
            let small = if d.kind == K_SPLIT { history.clone() } else { shrink(dir, &history, &d) };
            let again = run_history(dir, &small, None, None, true);
            match again.diffs.iter().find(|d2| d2.kind == d.kind) {
                | Some(d2) => (i, small, d2.clone(), true),
                | None => {
                    // not reproduced without the cache on the shrunk history: report the original
                    let orig = run_history(dir, &history, None, None, true);
                    let confirmed = orig.has(d.kind);
                    (i, history, d, confirmed)
                }
            }
        },
    );

    let (mut hits, mut misses, mut rechecks) = (0u64, 0u64, 0u64);
    for r in &results {
        sink.count(&format!("histories:{}", r.stream));
        if r.stream == "scripted" {
            sink.count(&format!("scripted:{}", r.shape));
        }
        sink.add("operations", r.history.ops.len() as u64);
        let bucket = match r.history.ops.len() {
            | 0..=8 => "history-length:<=8",
            | 9..=24 => "history-length:9-24",
            | _ => "history-length:25-60",
        };
        sink.count(bucket);
        hits += r.cache.0;
        misses += r.cache.1;
        rechecks += r.cache.2;
        for d in &r.outcome.diffs {
            sink.count(&format!("violations:{}", d.kind));
        }
        if !r.outcome.diffs.is_empty() {
            sink.count("histories-with-a-difference");
        }
        if let Some((request, answer)) = &r.outcome.model_case {
            sink.case(request, answer);
        }
    }
    // worker directories are named by scheduling: spell them `$DIR` in the report
    let scratch_canon = scratch.canonicalize().unwrap_or_else(|_| scratch.clone()).display().to_string();
    let anon = |text: &str| -> String {
        let mut out = String::with_capacity(text.len());
        let mut rest = text;
        while let Some(pos) = rest.find(&scratch_canon) {
            out.push_str(&rest[..pos]);
            rest = &rest[pos + scratch_canon.len()..];
            let b = rest.as_bytes();
            let mut n = 0;
            if b.len() > 2 && b[0] == b'/' && (b[1] == b'w' || b[1] == b's') {
                n = 2;
                while n < b.len() && b[n].is_ascii_digit() {
                    n += 1;
                }
            }
            out.push_str("$DIR");
            rest = &rest[n..];
        }
        out.push_str(rest);
        out
    };
    for (k, v) in global_stats.lock().unwrap().iter() {
        sink.add(k, *v);
    }
    let mut reported: std::collections::HashSet<String> = std::collections::HashSet::new();
    for (i, small, d, confirmed) in &shrunk {
        let r = &results[*i];
        let key = format!("{}|{}", d.kind, small.encode());
        if !reported.insert(key) {
            continue;
        }
        sink.violation(
            d.kind,
            serde_json::json!({
                "stream": r.stream,
                "shape": r.shape,
                "history": small.encode(),
                "original_history": r.history.encode(),
                "files": FILES,
                "replay": format!("zv-harness c15 --out DIR replay '{}'", small.encode()),
                "step": d.step,
                "operation": d.op,
                "long_lived": anon(&d.long_lived),
                "fresh": anon(&d.fresh),
                "confirmed_without_oracle_cache": confirmed,
            }),
        );
    }
    // these depend on how histories were scheduled over workers: not input-distribution counters
    sink.extra.insert(
        "fresh_oracle_cache".into(),
        serde_json::json!({"hits": hits, "misses": misses, "hits_recomputed_and_compared": rechecks}),
    );
    let _ = std::fs::remove_dir_all(&scratch);
    // violations are read from meta.json by bin/check; a non-zero exit would mean a harness crash
    sink.finish();
    0
}

/// `zv-harness c15 --out DIR replay '<init> <ops>'`: print every step's two answers.
fn replay(opts: &Opts) -> i32 {
    let text = opts.rest[1..].join(" ");
    let Some(h) = History::decode(&text) else {
        eprintln!("cannot decode history");
        return 2;
    };
    let dir = opts.out.join("replay");
    let mut w = World::new(&dir, &h.init);
    let mut s = CompilerSession::default();
    let mut code = 0;
    for (step, op) in h.ops.iter().enumerate() {
        match op {
            | Op::Query(f, q) | Op::SnapQuery(f, q) => {
                let long = if matches!(op, Op::SnapQuery(..)) {
                    let snap = s.snapshot();
                    observe(&snap, &w.dir, *f, *q)
                } else {
                    observe(&s, &w.dir, *f, *q)
                };
                let fresh = observe(&w.fresh(), &w.dir, *f, *q);
                if long == fresh {
                    println!("[{step}] {} : same\n{}\n", op.token(), long);
                } else {
                    code = 1;
                    println!("[{step}] {} : DIFFERENT\n--- long-lived\n{}\n--- fresh\n{}\n", op.token(), long, fresh);
                }
            }
            | _ => {
                let r = w.apply(&mut s, op);
                println!("[{step}] {} : {:?}", op.token(), r);
            }
        }
    }
    assert!(op_roundtrip(&h));
    code
}

fn op_roundtrip(h: &History) -> bool {
    History::decode(&h.encode()).map(|d| d.ops == h.ops && d.init == h.init).unwrap_or(false)
}
