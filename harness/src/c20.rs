//! C20: a `@[monadic]` block instantiated at the identity monad computes what the plain block
//! computes. Every generated closed returning computation is emitted twice over the real
//! `lib/std/control/monad.zy` - plain, and as `! translated Ret { ! ret_monad }` - and both are
//! checked and run by the real pipeline; the Lean ZCore model runs the plain body.
use crate::common::{Opts, Rng, Sink, n_threads, par_map};
use crate::pipeline::{self, Verdict};
use crate::zcore::{C, CTy, Gen, Program, V, VTy};
use zydeco_session::CompilerSession;

/// constructs outside what the algebra translation is specified for
fn unsupported_v(v: &V, out: &mut Vec<&'static str>) {
    match v {
        | V::Pair(a, b) => {
            unsupported_v(a, out);
            unsupported_v(b, out)
        }
        | V::Ctor(_, _, a) => unsupported_v(a, out),
        | V::Thunk(m, _) => unsupported(m, out),
        | _ => {}
    }
}

fn unsupported(c: &C, out: &mut Vec<&'static str>) {
    match c {
        | C::Ret(v) | C::Force(v) => unsupported_v(v, out),
        | C::Bind(_, m, _, n) => {
            unsupported(m, out);
            unsupported(n, out)
        }
        | C::Let(_, v, m) | C::LetPair(_, _, v, m) => {
            unsupported_v(v, out);
            unsupported(m, out)
        }
        | C::Fn(_, _, m) => unsupported(m, out),
        | C::App(m, v, _) => {
            unsupported(m, out);
            unsupported_v(v, out)
        }
        | C::Case(v, _, arms, _) => {
            unsupported_v(v, out);
            arms.iter().for_each(|(_, _, m)| unsupported(m, out))
        }
        | C::Fix(_, _, m) => {
            out.push("fix");
            unsupported(m, out)
        }
        | C::Comatch(_, arms) => {
            arms.iter().for_each(|(_, m)| unsupported(m, out))
        }
        | C::Dtor(m, _, _) => {
            unsupported(m, out)
        }
        | C::Arith(_, _, a, b) => {
            out.push("arith");
            unsupported_v(a, out);
            unsupported_v(b, out)
        }
        | C::StrAppend(a, b) => {
            out.push("strappend");
            unsupported_v(a, out);
            unsupported_v(b, out)
        }
        | C::Cmp(_, _, a, b, _, y, n) => {
            out.push("cmp");
            unsupported_v(a, out);
            unsupported_v(b, out);
            unsupported(y, out);
            unsupported(n, out)
        }
        | C::ToStr(_, a) => {
            out.push("tostr");
            unsupported_v(a, out)
        }
        | C::WriteLine(..) => out.push("writeline"),
        | C::Exit(_) => out.push("exit"),
    }
}

const RET_MONAD: &str = "    def ! ret_monad : Monad Ret =\n      comatch\n      | .return A value => ret value\n      | .bind A B computation function =>\n        do value <- ! computation;\n        ! function value\n      end\n    that\n";

/// Core types come from the intrinsic files, not from the `param` package, so that global
/// definitions depend on globals only and can be inlined into a monadic block.
fn frame(sig: &str, globals: &str, binding: &str, call: &str, ty: &VTy) -> String {
    let show = match ty {
        | VTy::Int(_) => "do zs <- ! (int64/to_string) zres;\n    ! (stdio/write_line) zs { ! (process/exit) 0 }",
        | _ => "! (stdio/write_line) zres { ! (process/exit) 0 }",
    };
    let mut s = String::from("begin\n  let monadic_basis = @(import(\"/repo/lib/std/control/monad.zy\")) that\n");
    for (name, file) in [("VType", "vtype"), ("CType", "ctype"), ("Thk", "thk"), ("Ret", "ret"), ("Unit", "unit"), ("Int64", "i64"), ("Int8", "i8"), ("UInt8", "u8"), ("Int32", "i32"), ("String", "string")] {
        s.push_str(&format!("  let {name} = @(import(\"/repo/lib/std/builtin/intrinsic/{file}.zy\")) that\n"));
    }
    s.push_str("  param (\n    (/numeric; /system; builtin) :\n    @(import(\"/repo/lib/std/builtin.zy\"))\n  ) that\n  let (Scalar = PackageInt64, int64) = numeric/int64 that\n  let (/OS; /stdio; /process) = system that\n  let (= Monad, = Algebra, ()) = monadic_basis builtin in\n  begin\n");
    s.push_str(sig);
    s.push_str(globals);
    s.push_str(RET_MONAD);
    s.push_str(binding);
    s.push_str(&format!("    do zres <- {call};\n    {show}\n  end\nend\n"));
    s
}

pub fn run(opts: &Opts) -> i32 {
    let mut sink = Sink::new(&opts.out);
    let mut rng = Rng::new(opts.seed ^ 0xC20);
    let n = if opts.thorough() { 8000 } else { 400 };
    let fuel: u64 = 400_000;
    let mut jobs: Vec<(usize, &'static str, String, String)> = Vec::new();
    let mut made = 0usize;
    let mut attempts = 0usize;
    while made < n && attempts < n * 40 {
        attempts += 1;
        let mut r2 = rng.fork();
        let mut g = Gen::new(&mut r2);
        g.gen_sig();
        let ty = if attempts % 3 == 0 { VTy::Str } else { VTy::Int("i64") };
        // global definitions: pure functions that mention globals only; the block refers to them,
        // to the same one more than once
        let n_globals = (attempts % 3) as usize;
        let mut globals: Vec<(usize, VTy, VTy, C)> = Vec::new();
        let mut bad = Vec::new();
        for k in 0..n_globals {
            let a = if g.rng.chance(1, 2) && !g.sig.datas.is_empty() { VTy::Data(g.rng.below(g.sig.datas.len() as u64) as usize) } else { VTy::Int("i64") };
            // endofunctions chain: the result of one call is the argument of the next
            let b = if g.rng.chance(2, 3) { a.clone() } else { VTy::Int("i64") };
            let x = 700_000 + k;
            let fbody = g.gen_c(&CTy::Ret(Box::new(b.clone())), &vec![(x, a.clone())], 8);
            unsupported(&fbody, &mut bad);
            globals.push((800_000 + k, a.clone(), b, C::Fn(x, a, Box::new(fbody))));
        }
        let mut ctx: Vec<(usize, VTy)> = Vec::new();
        let mut calls: Vec<(usize, usize, V, VTy)> = Vec::new();
        if !globals.is_empty() {
            for j in 0..2 + g.rng.below(2) as usize {
                let (gid, a, b, _) = globals[g.rng.below(globals.len() as u64) as usize].clone();
                let arg = g.gen_v(&a, &ctx, 3);
                unsupported_v(&arg, &mut bad);
                let q = 750_000 + j;
                calls.push((q, gid, arg, b.clone()));
                ctx.push((q, b));
            }
        }
        // every other body builds one or two objects of codata types with several destructors and
        // observes them (the translation of `comatch` arms and destructor calls)
        let mut objects: Vec<(usize, V, usize, C, VTy)> = Vec::new();
        if attempts % 2 == 0 {
            for _ in 0..1 + g.rng.below(2) {
                if let Some((x, v, t, y, call, res)) = g.gen_object(&ctx, 6) {
                    unsupported_v(&v, &mut bad);
                    unsupported(&call, &mut bad);
                    ctx.push((x, t));
                    ctx.push((y, res.clone()));
                    objects.push((x, v, y, call, res));
                }
            }
        }
        let mut body = g.gen_c(&CTy::Ret(Box::new(ty.clone())), &ctx, 6 + (attempts % 5) * 6);
        unsupported(&body, &mut bad);
        for (x, v, y, call, res) in objects.into_iter().rev() {
            body = C::Let(x, v, Box::new(C::Bind(y, Box::new(call), res, Box::new(body))));
        }
        for (q, gid, arg, b) in calls.into_iter().rev() {
            body = C::Bind(q, Box::new(C::App(Box::new(C::Force(V::Var(gid))), arg, CTy::Ret(Box::new(b.clone())))), b, Box::new(body));
        }
        // host operations are sealed global definitions: the checker refuses to inline them into a
        // monadic block ("Cannot inline definition"), so bodies are pure
        if !bad.is_empty() {
            for b in bad {
                sink.count(&format!("skipped_{b}"));
            }
            continue;
        }
        sink.count(&format!("globals_{n_globals}"));
        // transparent data declarations where possible (a sealed type cannot be inlined either)
        let mut sig = String::new();
        for (d, ctors) in g.sig.datas.iter().enumerate() {
            let recursive = ctors.iter().any(|(_, t)| format!("{} ", t.src()).contains(&format!("D{d} ")) || t.src().ends_with(&format!("D{d}")) || t.src().contains(&format!("D{d})")));
            let body: String = ctors.iter().map(|(k, a)| format!(" | +{k} : {}", a.src())).collect();
            if recursive {
                sig.push_str(&format!("    def D{d} : VType = data{body} end that\n"));
            } else {
                sig.push_str(&format!("    let D{d} = data{body} end that\n"));
            }
        }
        // codata types likewise: objects with several destructors are built and observed inside the
        // block
        for (c, dtors) in g.sig.codatas.iter().enumerate() {
            let body: String = dtors.iter().map(|(k, b)| format!(" | .{k} : {}", b.src())).collect();
            let recursive = dtors.iter().any(|(_, t)| { let t = format!("{} ", t.src().replace([')', '('], " ")); t.contains(&format!("C{c} ")) });
            if recursive {
                sig.push_str(&format!("    def C{c} : CType = codata{body} end that\n"));
            } else {
                sig.push_str(&format!("    let C{c} = codata{body} end that\n"));
            }
        }
        let mut gtext = String::new();
        for (gid, _, _, f) in &globals {
            gtext.push_str(&format!("    def x{gid} = {{ {} }} that\n", f.src().replace('\n', "\n      ")));
        }
        // n-ary tuple patterns, multi-parameter functions and tuple matches as the surface offers them
        crate::zcore::SUGAR.with(|f| f.set(made % 2 == 0));
        let text = body.src().replace('\n', "\n      ");
        crate::zcore::SUGAR.with(|f| f.set(false));
        if text.contains("comatch") {
            sink.count("bodies_with_comatch");
        }
        if text.contains(" .d") {
            sink.count("bodies_with_destructor_call");
        }
        let plain = frame(&sig, &gtext, &format!("    def ! plain : Ret ({}) =\n      {text}\n    that\n", ty.src()), "! plain", &ty);
        let monadic = frame(&sig, &gtext, &format!("    def ! translated = @[monadic] begin\n      {text}\n    end that\n"), "! translated Ret { ! ret_monad }", &ty);
        // the same computation as a ZCore program for the Lean reference semantics: the globals as
        // lets around the body, the result bound, printed, exit 0
        let res = 900_000usize;
        let tail = match &ty {
            | VTy::Int(t) => C::Bind(res + 1, Box::new(C::ToStr(t, V::Var(res))), VTy::Str, Box::new(C::WriteLine(V::Var(res + 1), Box::new(C::Exit(V::Int("i64", 0)))))),
            | _ => C::WriteLine(V::Var(res), Box::new(C::Exit(V::Int("i64", 0)))),
        };
        let mut whole = C::Bind(res, Box::new(body.clone()), ty.clone(), Box::new(tail));
        for (gid, a, b, f) in globals.iter().rev() {
            let fty = CTy::Arr(Box::new(a.clone()), Box::new(CTy::Ret(Box::new(b.clone()))));
            whole = C::Let(*gid, V::Thunk(Box::new(f.clone()), fty), Box::new(whole));
        }
        let model = Program { sig: g.sig.clone(), body: whole };
        jobs.push((made, "plain", plain, model.request(fuel, b"")));
        jobs.push((made, "monadic", monadic, model.request(fuel, b"")));
        made += 1;
    }
    sink.add("bodies", made as u64);
    let dir = opts.out.join("src");
    std::fs::create_dir_all(&dir).expect("src dir");
    let dir2 = dir.clone();
    let results = par_map(jobs, n_threads(), || (CompilerSession::default(), 0usize), move |state, (i, kind, source, request)| {
        state.1 += 1;
        if state.1 % 100 == 0 {
            state.0 = CompilerSession::default();
        }
        let path = dir2.join(format!("m{:?}.zy", std::thread::current().id()).replace(['(', ')'], ""));
        let (class, case) = crate::c01::machine_case(&mut state.0, &path, Some(&source), b"", &[], fuel);
        let (answer, ck) = match case {
            | Some((ck_req, ans)) => (format!("accept {ans}"), Some(ck_req)),
            | None => {
                let analyzed = pipeline::analyze_text(&mut state.0, &path, &source);
                let first = match &analyzed.verdict {
                    | Verdict::Rejected(m) => m.first().cloned().unwrap_or_default(),
                    | Verdict::Error { msg, .. } => msg.clone(),
                    | _ => String::new(),
                };
                (format!("{class} {}", first.lines().next().unwrap_or("").replace('\t', " ")), None)
            }
        };
        let _ = &ck;
        (i, kind, source, answer, request, ck)
    });
    let mut plain: std::collections::HashMap<usize, (String, String)> = Default::default();
    let mut pending: Vec<(usize, String, String)> = Vec::new();
    for (i, kind, source, answer, request, ck) in results {
        if answer.starts_with("accept ") && !answer.starts_with("accept fuel") {
            // the Lean reference semantics of the plain body must give what the real pipeline gives,
            // for the plain and for the translated program alike
            sink.case(&request, &answer);
            if kind == "monadic" {
                // the machine mirror on the real linked translated program
                if let Some(ck) = ck {
                    sink.case(&ck, answer.trim_start_matches("accept "));
                }
            }
        }
        if kind == "plain" {
            plain.insert(i, (source, answer));
        } else {
            pending.push((i, source, answer));
        }
    }
    for (i, source, answer) in pending {
        let Some((psrc, pans)) = plain.get(&i) else { continue };
        let pclass = pans.split(' ').next().unwrap_or("").to_string();
        let mclass = answer.split(' ').next().unwrap_or("").to_string();
        sink.count(&format!("plain_{}_monadic_{}", pclass.replace(':', "_"), mclass.replace(':', "_")));
        let verdict = if pclass != "accept" {
            "plain-not-accepted"
        } else if mclass == "panic" {
            "monadic-panics"
        } else if mclass != "accept" {
            // the property speaks of accepted blocks only
            "monadic-not-accepted"
        } else if *pans == answer {
            "same"
        } else {
            "differs"
        };
        if verdict == "differs" || verdict == "monadic-panics" {
            sink.violation(
                "c20-identity-instance-differs-from-plain",
                serde_json::json!({"plain": {"run": pans, "source": psrc}, "monadic": {"run": answer, "source": source}}),
            );
        }
        if verdict == "monadic-not-accepted" && sink.extra.len() < 8 {
            sink.extra.insert(format!("monadic_rejected_{}", sink.extra.len()), serde_json::json!({"why": answer, "source": source}));
        }
        sink.case(&format!("# c20 body {i}"), verdict);
    }
    let _ = std::fs::remove_dir_all(&dir);
    sink.finish();
    0
}
